"""C13 - read-only operations never change the graph, even when a user callback raises.

Fault sweep by abstract evaluation: each read-only entry point is evaluated on an abstract graph (a) fault-free and
(b) with each user callback raising at its k-th invocation for every k that occurs; the projected heap (every field of every
vertex, link, universe and law set, except the neighbour memo) must equal the pre-heap, and a following evaluation with
well-behaved callbacks must give the fault-free outcome.  Caching on and off.  The structural rule TEMP (sa.cfg) points at
attribute stores on graph objects that are not undone on every exit."""
from __future__ import annotations
import ast
import itertools

from sa.harness import H, show
from sa.ae import Seq, DictV, SetV, Obj, Callback, Raised, Unknown, Builtin, ExtV, SAtom, mkstr, GenV, IterV, ProxyV, ClassV
from rules import common, c04, c15

LEVEL = "fault_enumeration"
MEMO_FIELDS = {"_Vertex__qa_nb_cache"}
PICKLER_STUB = '''
class Pickler:
    """stand-in for dill.Pickler on arbitrary object graphs: the object protocol (class + state), containers element-wise,
    references to objects already memoised"""
    def __init__(self, file, **kwargs):
        self.file = file
        self.proto = kwargs.get("protocol") or 4
        self.write = file.write
        self.memo = []
    def save(self, obj, save_persistent_id=None):
        if obj is None or isinstance(obj, (int, str, float, bool)):
            self.write("ATOM")
            return
        for m in self.memo:
            if m is obj:
                self.write("REF")
                return
        self.write("OPEN")
        self.memoize(obj)
        if isinstance(obj, (list, tuple, set, frozenset)):
            for x in obj:
                self.save(x)
        elif isinstance(obj, dict):
            for k, v in obj.items():
                self.save(k)
                self.save(v)
        elif isinstance(obj, type) or callable(obj):
            self.write("GLOBAL")
        else:
            state = obj.__getstate__() if hasattr(obj, "__getstate__") else vars(obj)
            self.save(type(obj))
            self.save(state)
        self.write("CLOSE")
    def memoize(self, obj):
        self.memo.append(obj)
        self.write("MEMO")
'''


def proj(v, depth=0):
    if isinstance(v, Obj):
        return v.name or f"<{v.cls.name}>"
    if isinstance(v, Seq):
        return [proj(x, depth + 1) for x in v.items]
    if isinstance(v, SetV):
        return sorted(str(proj(x, depth + 1)) for x in v.items)
    if isinstance(v, DictV):
        return [[proj(k, depth + 1), proj(x, depth + 1)] for k, x in v.pairs]
    if isinstance(v, ProxyV):
        return proj(v.d, depth + 1)
    if isinstance(v, ClassV):
        return f"<class {v.name}>"
    return repr(v)


def heap(objs):
    return {o.name: {k: proj(v) for k, v in sorted(o.fields.items()) if k not in MEMO_FIELDS} for o in objs}


HARVEST = []      # attribute names built from the constants the tree tests names against (common.harvested_names), set by run()


class G:
    """universe U = [a, b, c]; a->b, b->c (directed), a--c (undirected), self-loop on a, a->x with x outside; laws with a whitelist.
    Every vertex also carries one dynamic attribute per harvested name."""

    def __init__(self, h, caching, unknown_link=False):
        h.reset()
        self.V = V = {n: h.new("Vertex", n, attributes=DictV([["name", n]] + [[k, f"value-of-{k}"] for k in HARVEST])) for n in "abcx"}
        self.L = [h.new("DirectedEdge", "e_ab", V["a"], V["b"]), h.new("DirectedEdge", "e_bc", V["b"], V["c"]), h.new("UnDirectedEdge", "e_ac", V["a"], V["c"]),
                  h.new("DirectedEdge", "e_aa", V["a"], V["a"]), h.new("DirectedEdge", "e_ax", V["a"], V["x"]), h.new("DirectedEdge", "e_bN", V["b"], None)]
        if unknown_link:
            self.L.append(h.new("SymTwo", "e_cb", V["c"], V["b"]))
        self.U = h.new("Universe", "U", vertices=Seq([V["a"], V["b"], V["c"]], "list"))
        laws = self.U.fields.get("_laws")
        if isinstance(laws, Obj):
            laws.name = "laws"
        # a second universe sharing the vertex a (listed first) with U, and holding the outside vertex x
        self.U2 = h.new("Universe", "U2", vertices=Seq([V["a"], V["x"]], "list"))
        self.objs = list(V.values()) + self.L + [self.U, self.U2] + ([laws] if isinstance(laws, Obj) else [])
        h.fn("edgegraph.structure.vertex.Vertex").dict["NEIGHBOR_CACHING"] = bool(caching)
        h.settle()


def entry_points(h, rec):
    C = c04.consts(h)
    f = h.fn
    nb, fl = f(c04.FN), f("edgegraph.traversal.helpers.find_links")
    eps = []
    eps.append(("neighbors", c04.FN, ("filterfunc",), lambda g, cb: h.call(nb, g.V["a"], C["ANY"], C["NEIGHBOR"], cb["filterfunc"])))
    eps.append(("neighbors/forward", c04.FN, ("filterfunc",), lambda g, cb: h.call(nb, g.V["c"], C["FORWARD"], C["NEIGHBOR"], cb["filterfunc"])))
    eps.append(("find_links", "edgegraph.traversal.helpers.find_links", ("filterfunc",), lambda g, cb: h.call(fl, g.V["a"], g.V["b"], True, C["NEIGHBOR"], cb["filterfunc"])))
    for mod, names in (("edgegraph.traversal.breadthfirst", ("bft", "ibft")), ("edgegraph.traversal.depthfirst", ("dft_recursive", "idft_recursive", "dft_iterative", "idft_iterative"))):
        for n in names:
            fn = f(f"{mod}.{n}")
            eps.append((n, f"{mod}.{n}", ("ff_via", "ff_result"), lambda g, cb, _fn=fn: h.call(_fn, g.U, g.V["a"], unknown_handling=C["NEIGHBOR"], ff_via=cb["ff_via"], ff_result=cb["ff_result"])))
    for mod, n in (("edgegraph.traversal.breadthfirst", "bfs"), ("edgegraph.traversal.depthfirst", "dfs_recursive"), ("edgegraph.traversal.depthfirst", "dfs_iterative")):
        fn = f(f"{mod}.{n}")
        eps.append((n, f"{mod}.{n}", (), lambda g, cb, _fn=fn: h.call(_fn, g.U, g.V["a"], "name", "c")))
    br = f("edgegraph.output.plaintext.basic_render")
    eps.append(("basic_render", "edgegraph.output.plaintext.basic_render", ("rfunc", "sort"), lambda g, cb: h.call(br, g.U, cb["rfunc"], cb["sort"])))
    mk = f("edgegraph.output.pyvis.make_pyvis_net")
    eps.append(("make_pyvis_net", "edgegraph.output.pyvis.make_pyvis_net", ("rvfunc", "refunc"), lambda g, cb: pyvis_call(h, rec, mk, g, cb)))
    pc = f("edgegraph.output.pyvis.pyvis_render_customizable")
    eps.append(("pyvis_render_customizable", "edgegraph.output.pyvis.pyvis_render_customizable", ("rvfunc", "refunc"), lambda g, cb: pyvis_call(h, rec, pc, g, cb)))
    dumps = h.w.mods["edgegraph.output.nrpickler"].globals.get("dumps")
    if dumps is not None:
        eps.append(("nrpickler.dumps", "edgegraph.output.nrpickler.dumps", (), lambda g, cb: _len_only(h.call(dumps, g.V["a"]))))
        eps.append(("nrpickler.dumps(universe)", "edgegraph.output.nrpickler.dumps", (), lambda g, cb: _len_only(h.call(dumps, g.U))))
        eps.append(("nrpickler.dumps(second universe)", "edgegraph.output.nrpickler.dumps", (), lambda g, cb: _len_only(h.call(dumps, g.U2))))
    pu = f("edgegraph.output.plantuml.render_to_plantuml_src")
    eps.append(("render_to_plantuml_src", "edgegraph.output.plantuml.render_to_plantuml_src", ("user_render_func",), lambda g, cb: plantuml_call(h, pu, g, cb)))
    eps.append(("render_to_plantuml_src(title_format='T_{name}')", "edgegraph.output.plantuml.render_to_plantuml_src", (), lambda g, cb: plantuml_call(h, pu, g, cb, "T_{name}")))
    # a title format naming an attribute that no vertex has: however the call ends (it may well raise), the vertices gain nothing
    eps.append(("render_to_plantuml_src(title_format='T_{nick}')", "edgegraph.output.plantuml.render_to_plantuml_src", (), lambda g, cb: plantuml_call(h, pu, g, cb, "T_{nick}")))
    return eps


def _len_only(out):
    if out.kind == "return" and isinstance(out.value, Seq):
        out.value = f"<stream of {len(out.value.items)} operations>"
    return out


def pyvis_call(h, rec, fn, g, cb):
    rec.events, rec.nodes = [], []
    out = h.call(fn, g.U, cb["rvfunc"], cb["refunc"])
    if out.kind == "return":
        out.value = Seq([Seq(list(e), "tuple") for e in rec.events], "list")
    return out


def plantuml_call(h, fn, g, cb, title_format=None):
    """the options table is built once per set of callbacks: a repeated call passes the *same* table, as a caller would"""
    opts = cb.get("_puml_options")
    if opts is None:
        m = h.w.mods["edgegraph.output.plantuml"]
        base = m.globals.get("PLANTUML_RENDER_OPTIONS")
        if not isinstance(base, DictV):
            raise Unknown("PLANTUML_RENDER_OPTIONS is not a dict")
        opts = DictV()
        for k, v in base.pairs:
            opts.pairs.append([k, DictV([[kk, (Seq(list(vv.items), vv.kind) if isinstance(vv, Seq) else vv)] for kk, vv in v.pairs]) if isinstance(v, DictV) else v])
        for k, v in opts.pairs:
            if k is h.cls("Vertex"):
                if cb["user_render_func"] is not None:
                    v.pairs.append(["user_render_func", cb["user_render_func"]])
                if title_format is not None:
                    for p_ in v.pairs:
                        if p_[0] == "title_format":
                            p_[1] = title_format
                        if p_[0] == "show_attrs":
                            p_[1] = Seq(["name"], "list")
        cb["_puml_options"] = opts
    return h.call(fn, g.U, opts)


GOOD = {
    "filterfunc": lambda I, n, a, k: True, "ff_via": lambda I, n, a, k: True, "ff_result": lambda I, n, a, k: True,
    "rfunc": lambda I, n, a, k: mkstr([SAtom("R", a[0])]), "sort": lambda I, n, a, k: {"a": 0, "b": 3, "c": 2, "x": 1}[a[0].name] if a[0] is not None else 9,
    "rvfunc": lambda I, n, a, k: mkstr([SAtom("Label", a[0])]), "refunc": lambda I, n, a, k: mkstr([SAtom("Title", a[0])]),
    "user_render_func": lambda I, n, a, k: mkstr([SAtom("Decl", a[0]), "\n"]),
}


ARITY = {"ff_via": 2, "ff_result": 1, "rfunc": 1, "sort": 1, "rvfunc": 1, "refunc": 1, "user_render_func": 2}


def mkcbs(names, fault=None, armed=None):
    """`armed`: a one-element list; the fault only fires while armed[0] is true, so the *same* callables can be re-used
    well-behaved for the repeated call."""
    cbs = {n: None for n in GOOD}
    for n in names:
        def script(I, k, a, kw, _n=n):
            if _n in ARITY and (len(a) != ARITY[_n] or kw):
                # the callables have the documented signatures: called any other way they fail like a Python function does
                raise Raised(I.w.B.mkexc("TypeError", f"{_n}() takes {ARITY[_n]} positional argument(s) but {len(a)} were given"))
            if fault is not None and fault[0] == _n and k == fault[1] and (armed is None or armed[0]):
                # the callback's own failure: a RuntimeError at odd invocations, a TypeError at even ones (a callback may fail with any exception)
                raise Raised(I.w.B.mkexc("TypeError" if k % 2 == 0 else "RuntimeError", f"injected fault in {_n} call {k}"))
            return GOOD[_n](I, k, a, kw)
        cbs[n] = Callback(n, script)
    return cbs


def observe(h, g):
    """What a user can see of the graph through queries: neighbours of every vertex (two settings) and a traversal.
    With caching on these go through the memo, so a read-only operation that disturbs cached answers is visible here."""
    C = c04.consts(h)
    nb = h.fn(c04.FN)
    bft = h.fn("edgegraph.traversal.breadthfirst.bft")
    out = {}
    for n, v in g.V.items():
        out["neighbors(" + n + ")"] = outsig(h.call(nb, v))
        out["neighbors(" + n + ", NEIGHBOR)"] = outsig(h.call(nb, v, C["FORWARD"], C["NEIGHBOR"]))
        out["neighbors(" + n + ", ANY)"] = outsig(h.call(nb, v, C["ANY"]))
    out["bft(U, a)"] = outsig(h.call(bft, g.U, g.V["a"], unknown_handling=C["NEIGHBOR"]))
    return out


def obsdiff(a, b):
    return "; ".join(f"{k}: {a[k]} -> {b[k]}" for k in a if a[k] != b.get(k))[:300]


def outsig(o):
    if o.kind == "raise":
        return "raise " + o.excname
    v = o.value
    if isinstance(v, (GenV, IterV)):
        return "generator"
    return proj(v)


def run(ctx):
    res = ctx.res
    res.level = LEVEL
    res.rule_text = ("every read-only entry point named in the statement x caching off/on x {no callbacks, well-behaved callbacks, each callback raising at its k-th invocation for every k that "
                     "occurs; pyvis.add_edge raising AssertionError}: projected heap after = heap before, and a repeated call with well-behaved callbacks gives the fault-free outcome. "
                     "distinct = (entry point, caching, fault position)")
    res.trusted_base = common.TRUSTED_AE + ["the neighbour memo and cache statistics are not observable structure (excluded from the heap comparison)"]
    res.assumptions = ["callbacks and third-party libraries do not themselves mutate the graph", "_resolve_options compiling show_attrs inside the caller's *options* dict is outside the property (not a vertex, link or universe)",
                       "nrpickler.dumps is evaluated with dill.Pickler replaced by a stand-in that walks the object graph through the object protocol (class + instance state)"]
    rec = c15.Recorder(None)
    HARVEST[:] = common.harvested_names(ctx)
    if HARVEST:
        res.note(f"vertices carry dynamic attributes named after constants the tree compares names with: {HARVEST}")
    h = H(ctx.src, ["edgegraph.traversal.helpers", "edgegraph.traversal.breadthfirst", "edgegraph.traversal.depthfirst", "edgegraph.output.plaintext"])
    h.w.ext_overrides["pyvis.network.Network"] = Builtin("pyvis.network.Network", lambda I, *a, **k: rec.network(I, *a, **k))
    stub = h.w.load_text("verif_c13_pickler", PICKLER_STUB).globals
    h.w.ext_overrides["dill.Pickler"] = stub["Pickler"]

    def bytesio(I, *a, **k):
        return ExtV("io.BytesIO", methods={"write": lambda I_, f_, data: f_.attrs["events"].append(data), "getvalue": lambda I_, f_: Seq(list(f_.attrs["events"]), "list"), "__strict__": True}, attrs={"events": []})

    h.w.ext_overrides["io.BytesIO"] = Builtin("io.BytesIO", bytesio)
    h.w.load("edgegraph.output.pyvis")
    h.w.load("edgegraph.output.plantuml")
    h.w.load("edgegraph.output.nrpickler")
    h.w.snapshot()
    rec.h = h
    MEMO_FIELDS.add(h.actual["memo"])      # the memo field as it is called in this tree
    h.w.set_order = "insertion"   # iteration order of link sets does not matter for the heap comparison
    n = 0
    for name, qual, cbnames, thunk in entry_points(h, rec):
        for caching in (False, True):
            try:
                # fault-free baselines
                base = {}
                unk = name.startswith(("neighbors", "find_links")) or name in ("bft", "ibft", "dft_recursive", "idft_recursive", "dft_iterative", "idft_iterative")
                for mode in ("none", "good", "good-cold"):
                    g = G(h, caching, unknown_link=unk)
                    # "cold": the reference observation is taken on a twin graph, so the operation itself meets empty memos
                    obs0 = observe(h, g)
                    if mode == "good-cold":
                        g = G(h, caching, unknown_link=unk)
                    pre = heap(g.objs)
                    cbs = mkcbs(cbnames if mode != "none" else ())
                    out = thunk(g, cbs)
                    post = heap(g.objs)
                    obs1 = observe(h, g)
                    n += 1
                    ok = post == pre
                    if ok and obs1 != obs0:
                        res.ob(False, sig=(name, caching, mode, "obs"))
                        res.violation("UNCHANGED", qual, f"fault=none,caching={caching},later-queries-differ", f"after {name} (callbacks: {mode}) later queries answer differently: {obsdiff(obs0, obs1)}", replay=replay(name))
                    res.ob(ok, sig=(name, caching, mode), sample={"entry": name, "caching": caching, "callbacks": mode, "outcome": str(outsig(out))[:200]})
                    if not ok:
                        res.violation("UNCHANGED", qual, f"fault=none,caching={caching}", f"{name} (callbacks: {mode}) changes the graph: {diff(pre, post)}", replay=replay(name))
                    if mode != "good-cold":
                        base[mode] = (outsig(out), {c: len(cbs[c].calls) for c in cbnames if cbs[c] is not None})
                # faults
                counts = base["good"][1]
                for c in cbnames:
                    for k in range(counts.get(c, 0)):
                        g = G(h, caching, unknown_link=unk)
                        obs0 = observe(h, g)
                        pre = heap(g.objs)
                        armed = [True]
                        cbs = mkcbs(cbnames, fault=(c, k), armed=armed)
                        out = thunk(g, cbs)
                        post = heap(g.objs)
                        armed[0] = False
                        for cb in cbs.values():
                            if cb is not None:
                                cb.calls = []
                        out2 = thunk(g, cbs)   # the same callables, now well-behaved
                        post2 = heap(g.objs)
                        obs1 = observe(h, g)
                        n += 1
                        why = None
                        if obs1 != obs0:
                            why = f"after {c} raised at its call #{k} and {name} was repeated, later queries answer differently: {obsdiff(obs0, obs1)}"
                        elif post != pre:
                            why = f"after {c} raised at its call #{k} ({name} ended with {outsig(out) if out.kind == 'raise' else 'a normal return'}) the graph differs: {diff(pre, post)}"
                        elif outsig(out2) != base["good"][0] or post2 != pre:
                            why = f"after {c} raised at its call #{k}, repeating {name} with well-behaved callbacks gives {str(outsig(out2))[:160]} instead of the normal answer {str(base['good'][0])[:160]}"
                        res.ob(why is None, sig=(name, caching, c, k))
                        if why:
                            res.violation("FAULT", qual, f"fault-in={c},caching={caching}", why, replay=replay(name, c, k))
                if name.startswith("make_pyvis") or name.startswith("pyvis"):
                    n += pyvis_assert_fault(h, rec, res, name, qual, thunk, caching, cbnames)
            except Unknown as u:
                res.ob(False)
                res.undecide(f"{name} caching={caching}: {u}")
    res.rule("FAULT-SWEEP", n)
    # ---- "repeating the call with a well-behaved callback gives the normal answer", when the earlier callback object is gone: a
    # throw-away filter is used once and dropped, the next one is allocated where it lived (closures; callable objects of a class that
    # defines __eq__ without __hash__)
    from rules import c05
    nl = 0
    for mk_, d_ in itertools.product(("make_reject", "RejectUnhashable"), ("ANY", "FORWARD")):
        try:
            h5 = H(ctx.src, ["edgegraph.traversal.helpers"])
            outs = [c05.lifetime_scenario(h5, caching, d_, "NEIGHBOR", mk_)[0] for caching in (False, True)]
        except Unknown as u:
            res.ob(False)
            res.undecide(f"FILTER-LIFETIME {mk_},{d_}: {u}")
            continue
        nl += 1
        ok = outs[0] == outs[1]
        res.ob(ok, sig=("filter-lifetime", mk_, d_))
        if not ok:
            res.violation("FILTER-LIFETIME", "edgegraph.traversal.helpers.neighbors", "caching-on,second-filter-allocated-where-the-first-one-lived" + (",filters-are-unhashable-objects" if mk_ != "make_reject" else ""),
                          f"caching on: neighbors(a, {d_}, NEIGHBOR, f1) with a throw-away filter; f1 is dropped and a new, well-behaved filter f2 lives at its address; neighbors(a, {d_}, NEIGHBOR, f2) gives {outs[1]}, "
                          f"the normal answer (caching off) is {outs[0]}")
    res.rule("FILTER-LIFETIME", nl)
    from rules import structural
    for q in ("edgegraph.output.pyvis.make_pyvis_net", "edgegraph.output.plantuml.render_to_plantuml_src", "edgegraph.output.plaintext.basic_render", "edgegraph.traversal.helpers.neighbors",
              "edgegraph.traversal.helpers.find_links", "edgegraph.traversal.breadthfirst.ibft", "edgegraph.traversal.depthfirst._dft_recur", "edgegraph.traversal.depthfirst.idft_iterative"):
        structural.temp_rule(ctx, q)
    structural.memo_on_success(ctx)
    from rules import hist
    hist.run(ctx, res, 'C13')       # composition: histories through the public API against the reference model (rules/hist.py)
    from rules import scale
    scale.run(ctx, res, 'C13')      # the same on graphs whose collections have the sizes the tree names (rules/scale.py)
    from rules import genproto
    genproto.run(ctx, res, 'C13')      # generator protocol: suspended / interleaved / abandoned generators, a fault inside one (rules/genproto.py)
    common.vacuity(res, "HISTORY", 10000)
    common.vacuity(res, "FAULT-SWEEP", 150)
    res.analysed = common.analysed(ctx, sorted({q for _, q, _, _ in entry_points(h, rec)}))
    res.explanation = "For every entry point and every fault position the graph's projected heap is unchanged and the repeated call gives the fault-free answer."


def pyvis_assert_fault(h, rec, res, name, qual, thunk, caching, cbnames):
    """pyvis' add_edge raising AssertionError at each of its invocations."""
    g = G(h, caching)
    thunk(g, mkcbs(cbnames))
    total = len([e for e in rec.events if e[0] == "add_edge"])
    n = 0
    for k in range(total):
        g = G(h, caching)
        pre = heap(g.objs)
        orig = rec.network

        def faulty(I, *a, _k=k, **kw):
            net = orig(I, *a, **kw)
            real = net.methods["add_edge"]
            cnt = [0]

            def add_edge(I_, net_, src, dst, **k2):
                cnt[0] += 1
                if cnt[0] - 1 == _k:
                    raise Raised(I_.w.B.mkexc("AssertionError", "injected"))
                return real(I_, net_, src, dst, **k2)
            net.methods["add_edge"] = add_edge
            return net
        rec.network = faulty
        try:
            out = thunk(g, mkcbs(cbnames))
        finally:
            rec.network = orig
        post = heap(g.objs)
        n += 1
        ok = post == pre
        res.ob(True, sig=(name, caching, "add_edge", k))
        if not ok:
            res.note(f"{name}: after pyvis' own add_edge #{k} raised AssertionError the graph differs: {diff(pre, post)} (outside the statement's fault clause, which covers user-supplied callbacks; noted only)")
    return n


def diff(a, b):
    out = []
    for o in sorted(set(a) | set(b)):
        fa, fb = a.get(o, {}), b.get(o, {})
        for f in sorted(set(fa) | set(fb)):
            if fa.get(f, "<absent>") != fb.get(f, "<absent>"):
                out.append(f"{o}.{f}: {fa.get(f, '<absent>')} -> {fb.get(f, '<absent>')}")
    return "; ".join(out[:4])


def replay(name, cb=None, k=None):
    return (f"# entry point {name}; make the callback `{cb}` raise at its call #{k}, catch the exception, then compare vars() of every vertex/link/universe with a snapshot taken before"
            if cb else f"# entry point {name}: compare vars() of every vertex/link/universe before and after the call")


def _old_temp_rule(ctx, res):
    """(superseded by rules.structural.temp_rule)"""
    prog = common.program(ctx)
    n = 0
    for q in ("edgegraph.output.pyvis.make_pyvis_net", "edgegraph.output.plantuml.render_to_plantuml_src", "edgegraph.output.plaintext.basic_render",
              "edgegraph.traversal.helpers.neighbors", "edgegraph.traversal.helpers.find_links"):
        f = prog.func(q)
        n += 1
        for node in ast.walk(f.node):
            if isinstance(node, (ast.Assign, ast.AugAssign, ast.AnnAssign)):
                tgts = node.targets if isinstance(node, ast.Assign) else [node.target]
                for t in tgts:
                    if isinstance(t, ast.Attribute) and not (isinstance(t.value, ast.Name) and t.value.id in ("net", "self")):
                        in_try = False
                        res.note(f"TEMP: {f.rel}:{node.lineno} {q}: stores attribute .{t.attr} on an object inside a read-only entry point; the fault sweep decides whether every exit undoes it")
            if isinstance(node, ast.Call) and isinstance(node.func, ast.Name) and node.func.id == "setattr":
                res.note(f"TEMP: {f.rel}:{node.lineno} {q}: setattr() inside a read-only entry point")
    res.rule("TEMP", n)
