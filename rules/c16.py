"""C16 - plain-text rendering: one well-formed line per vertex listing its FORWARD neighbours.

basic_render is evaluated abstractly with symbolic strings: vertex renderings are opaque atoms (repr(v) or the result of
the rfunc callback), so the derived result is a symbolic string whose literal skeleton is compared with
R(v) ' -> ' join(', ', R(n)...) lines joined by newlines."""
from __future__ import annotations
import itertools

from sa.harness import H
from sa.ae import Seq, SymStr, SAtom, Callback, mkstr, Unknown, Obj
from rules import common

LEVEL = "proof"
FN = "edgegraph.output.plaintext.basic_render"

# graphs: name -> (universe order, directed edges, undirected edges, outside vertices)
GRAPHS = {
    "empty-universe": ([], [], [], []),
    "single-isolated": (["a"], [], [], []),
    "chain": (["a", "b", "c"], [("a", "b"), ("b", "c")], [], []),
    "fan-out+incoming": (["a", "b", "c"], [("a", "b"), ("a", "c"), ("c", "a")], [], []),
    "self-loop+parallel": (["a", "b"], [("a", "a"), ("a", "b"), ("a", "b")], [], []),
    "undirected": (["a", "b", "c"], [], [("a", "b"), ("c", "a")], []),
    "neighbour-outside": (["b", "a"], [("a", "x"), ("a", "b")], [], ["x"]),
    "sink-only": (["a", "b"], [("a", "b")], [], []),
    "three-neighbours": (["d", "a", "b", "c"], [("a", "d"), ("a", "c"), ("a", "b")], [], []),
    "incoming-from-outside": (["a", "b"], [("x", "a"), ("a", "b")], [], ["x"]),     # with value equality: x == a, and x only points AT a
    "outside+tied-keys": (["a", "c", "b"], [("a", "c"), ("a", "x"), ("a", "b"), ("b", "c"), ("b", "x")], [], ["x"]),
}
SAME_LABEL = {"b": "c"}   # rfunc variant "same-label": b is rendered exactly like c
SORTKEY = {"a": 3, "b": 1, "c": 1, "d": 0, "x": -1}   # b and c tie (stable order required); the outside vertex sorts first


def forward(order, de, ue, v):
    """FORWARD neighbours in link-creation order (statement: neighbors() order)."""
    out = []
    for kind, (p, q) in sorted([(i, e) for i, e in enumerate(de)] + [(len(de) + i, e) for i, e in enumerate(ue)]):
        pass
    seq = [("d", e) for e in de] + [("u", e) for e in ue]
    for kind, (p, q) in seq:
        if kind == "d":
            if p == v:
                out.append(q)
        else:
            if p == v:
                out.append(q)
            elif q == v:
                out.append(p)
    return out


def run(ctx):
    res = ctx.res
    res.rule_text = ("basic_render evaluated on symbolic strings over graphs covering 0/1/2/3 forward neighbours, self-loops, parallel edges, undirected edges, incoming-only "
                     "vertices, neighbours outside the universe, x rfunc in {None, callback} x sort in {None, key}; derived symbolic result compared with the specified line template")
    res.trusted_base = common.TRUSTED_AE + ["symbolic strings: renderings are opaque atoms, literal text is exact; slicing/stripping into an atom is UNDECIDED"]
    res.assumptions = ["rfunc / sort callbacks are pure", "neighbors() itself is decided by C04 (FORWARD, default unknown handling)"]
    import sa.ae
    sa.ae.SYM_ATOMS_INJECTIVE = True   # repr() of distinct objects differ; the rfunc labels of this harness are distinct unless stated
    h = H(ctx.src, ["edgegraph.traversal.helpers", "edgegraph.output.plaintext"])
    fn = h.fn(FN)
    n = 0
    for gname, (order, de, ue, outside) in GRAPHS.items():
        for use_rfunc, use_sort in itertools.product((False, True, "same-label", "str-only-class", "equal-vertices"), (False, True, "cached-twice")):
            h.reset()
            vcls = "Vertex"
            label_rfunc = use_rfunc
            if use_rfunc == "str-only-class":
                vcls, use_rfunc = "StrVert", False   # repr() is specified, not str()
            if use_rfunc == "equal-vertices":
                # a user vertex class with value equality: an outside vertex compares equal to a member (x == a) but is rendered differently
                if not outside:
                    continue
                use_rfunc = True
                V = {}
                for i_, v in enumerate(list(order) + list(outside)):
                    V[v] = h.I.call(h.sym["EqVert"], [0 if v in ("a", "x") else i_ + 1], {})
                    V[v].name = v
            else:
                V = {v: h.new(vcls, v) for v in list(order) + list(outside)}
            for p, q in de:
                h.new("DirectedEdge", f"d_{p}{q}", V[p], V[q])
            for p, q in ue:
                h.new("UnDirectedEdge", f"u_{p}{q}", V[p], V[q])
            uni = h.new("Universe", "U", vertices=Seq([V[v] for v in order], "list"))
            h.settle()
            lab = (lambda n: SAME_LABEL[n] if n in SAME_LABEL and SAME_LABEL[n] in V else n) if use_rfunc == "same-label" else (lambda n: n)
            rfunc = Callback("rfunc", lambda I, k, a, kw: mkstr([SAtom("R", V[lab(a[0].name)])])) if use_rfunc else None
            keys = dict(SORTKEY)
            sort = Callback("sort", lambda I, k, a, kw: keys[a[0].name]) if use_sort else None
            if use_sort == "cached-twice":
                # caching on; a first render under one key order, then the keys change (the attribute the key reads was edited) and the
                # same callable is used again: the second render must follow the new keys
                h.fn("edgegraph.structure.vertex.Vertex").dict["NEIGHBOR_CACHING"] = True
                try:
                    h.call(fn, uni, rfunc, sort)
                except Unknown:
                    pass
                for k_ in keys:
                    keys[k_] = -keys[k_] if k_ not in ("b", "c") else keys[k_]
                keys["b"], keys["c"] = 1, 0
            R = (lambda v: SAtom("R", V[lab(v)])) if use_rfunc else (lambda v: SAtom("Repr", V[v]))
            try:
                out = h.call(fn, uni, rfunc, sort)
            except Unknown as u:
                res.ob(False)
                res.undecide(f"{FN} on {gname} rfunc={use_rfunc} sort={use_sort}: {u}")
                continue
            n += 1
            vorder = sorted(order, key=keys.get) if use_sort else list(order)
            why = None
            if not order:
                if not (out.kind == "return" and out.value is None):
                    why = f"empty universe gives {out!r}, None required"
            elif out.kind != "return" or not isinstance(out.value, (str, SymStr)):
                why = f"gives {out!r}"
            else:
                got_lines = split_lines(out.value)
                if got_lines and got_lines[-1] == []:
                    got_lines = got_lines[:-1]      # a trailing newline is not an extra line
                if len(got_lines) != len(vorder):
                    why = f"{len(got_lines)} line(s) for {len(vorder)} member vertices: {out.value!r}"
                else:
                    # "sorted by the key": elements with equal keys may come in any order
                    def orders(seq):
                        if not use_sort:
                            return [list(seq)]
                        groups = {}
                        for x in seq:
                            groups.setdefault(keys[x], []).append(x)
                        outs = [[]]
                        for kk in sorted(groups):
                            outs = [o + list(p) for o in outs for p in (itertools.permutations(groups[kk]) if len(groups[kk]) <= 3 else [groups[kk]])]
                        return outs
                    line_of = {}
                    for line in got_lines:
                        first = line[0].key() if line and hasattr(line[0], "key") else None
                        line_of.setdefault(first, []).append(line)
                    vorders = orders(order)
                    got_first = [l[0].key() if l and hasattr(l[0], "key") else None for l in got_lines]
                    vmatch = next((vo for vo in vorders if [R(v).key() for v in vo] == got_first), None)
                    if vmatch is None:
                        why = f"lines start with {[SymStr(l[:1]) for l in got_lines]}, expected the members in universe order / key order {vorders[0]}"
                    for v, line in zip(vmatch or [], got_lines):
                        nbs = forward(order, de, ue, v)
                        wants = []
                        for nb_order in orders(nbs):
                            parts = [R(v), " -> "]
                            for i, w in enumerate(nb_order):
                                if i:
                                    parts.append(", ")
                                parts.append(R(w))
                            wants.append(SymStr(parts))
                        want = wants[0]
                        ok = any(SymStr(line).norm() == w_.norm() for w_ in wants)
                        if not ok and not nbs:
                            # a vertex without neighbours: rendering, arrow, then nothing but blanks
                            ln = SymStr(line).norm()
                            ok = len(ln) == 2 and ln[0] == want.norm()[0] and isinstance(ln[1], str) and ln[1].startswith(" ->") and ln[1].strip() == "->"
                        if not ok:
                            why = f"line for {v}: derived {SymStr(line)!r}, specified {want!r}"
                            break
            zero = any(not forward(order, de, ue, v) for v in order)
            res.ob(why is None, sig=(gname, label_rfunc, use_sort), sample={"graph": gname, "rfunc": use_rfunc, "sort": use_sort, "derived": repr(out.value) if out.kind == "return" else repr(out)})
            if why:
                res.violation("LINE", FN, f"rfunc={label_rfunc},sort={use_sort},zero-neighbour-vertex={zero and 'line for' in why and not forward(order, de, ue, why.split()[2].rstrip(':'))}",
                              f"graph {gname} (universe order {order}, directed {de}, undirected {ue}): {why}", replay=replay(gname, use_rfunc, use_sort))
    res.rule("LINE", n)
    from rules import hist
    hist.run(ctx, res, 'C16', extra=('rules.histobs', 'text'))       # composition: histories through the public API against the reference model (rules/hist.py)
    from rules import scale
    scale.run(ctx, res, 'C16', extra=('rules.histobs', 'text'))      # the same on graphs whose collections have the sizes the tree names (rules/scale.py)
    common.vacuity(res, "HISTORY", 2500)
    common.vacuity(res, "LINE", 100)
    res.analysed = common.analysed(ctx, [FN])
    res.explanation = ("The derived symbolic output equals the specified template for 0, 1, 2 and 3 neighbours; the accumulation loop treats every neighbour alike "
                       "(same separator, same rendering call), so the template extends to any number.")


def split_lines(s):
    parts = s.parts if isinstance(s, SymStr) else [s]
    lines, cur = [], []
    for p in parts:
        if isinstance(p, str):
            segs = p.split("\n")
            for i, seg in enumerate(segs):
                if i:
                    lines.append(cur)
                    cur = []
                if seg:
                    cur.append(seg)
        else:
            cur.append(p)
    lines.append(cur)
    return lines


def replay(gname, use_rfunc, use_sort):
    order, de, ue, outside = GRAPHS[gname]
    L = ["from edgegraph.structure import *", "from edgegraph.output import plaintext",
         f"V = {{n: Vertex(attributes={{'name': n}}) for n in {list(order) + list(outside)}}}"]
    for p, q in de:
        L.append(f"DirectedEdge(V[{p!r}], V[{q!r}])")
    for p, q in ue:
        L.append(f"UnDirectedEdge(V[{p!r}], V[{q!r}])")
    L.append(f"uni = Universe(vertices=[V[n] for n in {list(order)}])")
    L.append(f"print(repr(plaintext.basic_render(uni, rfunc={'(lambda v: ' + repr(SAME_LABEL) + '.get(v.name, v.name))' if use_rfunc == 'same-label' else ('(lambda v: v.name)' if use_rfunc else 'None')}, sort={'(lambda v: ' + repr(SORTKEY) + '[v.name])' if use_sort else 'None'})))")
    return "\n".join(L)
