"""Helpers shared by the per-property rules."""
from __future__ import annotations
import hashlib

from sa.pm import Program, identity_model_violations
from sa.src import SourceError

TRUSTED_AE = [
    "AE's model of the Python subset (attribute lookup incl. properties/descriptors, MRO, super, name mangling, exceptions of list/tuple/dict operations, generators collapsed to their yielded trace)",
    "identity model: no edgegraph.structure class defines __eq__/__hash__/__contains__/__getattr__/__setattr__ (checked on every run)",
    "models of built-ins and external modules in sa/aeb.py, sa/aeb2.py (uuid4 values pairwise distinct and non-zero)",
    "oracle tables transcribed from properties.jsonl (DESIGN.md Appendix A)",
]

_PROG = {}


def program(ctx) -> Program:
    if getattr(ctx.src, "_verif_prog", None) is None:
        ctx.src._verif_prog = Program(ctx.src)
    return ctx.src._verif_prog


def identity_model(ctx):
    bad = identity_model_violations(program(ctx))
    for b in bad:
        ctx.res.undecide(f"identity model precondition lost: {b}")
    return not bad


def analysed(ctx, dotted_funcs, files=None):
    prog = program(ctx)
    out = {"functions": {}, "files": {}}
    rels = set(files or [])
    for d in dotted_funcs:
        f = prog.func(d)
        out["functions"][d] = {"at": f.loc(), "digest": f.digest()}
        rels.add(f.rel)
    for r in sorted(rels):
        out["files"][r] = hashlib.sha256(ctx.src.text(r).encode()).hexdigest()[:12]
    return out


def vacuity(res, rule, minimum):
    n = res.rules.get(rule, {}).get("instances", 0)
    if n < minimum:
        res.undecide(f"vacuity guard: rule {rule} matched {n} instance(s), expected at least {minimum}")


def own_rule(ctx, fields):
    """OWN premise (filled in by sa.eff once available)."""
    from sa import eff
    from sa.harness import H
    if getattr(ctx, "_actual_fields", None) is None:
        ctx._actual_fields = H(ctx.src).actual      # state fields located by role (a tree may have renamed them)
    role = {"Vertex._links": "links", "Link._vertices": "ends", "Universe._vertices": "members", "BaseObject._universes": "universes", "Universe._laws": "laws",
            "UniverseLaws._applies_to": "applies_to"}
    actual = {}
    for spec in fields:
        if spec in role:
            name = ctx._actual_fields[role[spec]]
            cname = spec.split(".", 1)[0]
            actual[spec] = name
            if name != spec.split(".", 1)[1]:
                ctx.res.note(f"state field {spec} is called `{name}` in this tree (located by role)")
    eff.check_own(ctx, fields, actual)


def harvested_names(ctx, packages=("edgegraph/structure", "edgegraph/output/nrpickler.py")):
    """Attribute names built from the string constants the tree itself tests names against (arguments of startswith / endswith,
    operands of == / in, class-level string constants): `<constant>x`.  A tree that treats some family of attribute names specially
    names that family in its own source; objects carrying such an attribute are the input class that reaches the special case."""
    import ast
    import re
    cached = getattr(ctx.src, "_verif_harvest", None)
    if cached is not None:
        return cached
    out = []
    files = []
    for pkg in packages:
        if pkg.endswith(".py"):
            files.append(pkg)
        else:
            files += [r for r in ctx.src.relpaths() if r.startswith(pkg + "/")]
    for rel in files:
        try:
            tree = ctx.src.tree(rel)
        except (SourceError, OSError):
            continue
        for node in ast.walk(tree):
            cands = []
            if isinstance(node, ast.Call) and isinstance(node.func, ast.Attribute) and node.func.attr in ("startswith", "endswith", "removeprefix", "removesuffix"):
                for a in node.args:
                    cands += [c for c in ast.walk(a) if isinstance(c, ast.Constant)]
            elif isinstance(node, ast.Compare) and any(isinstance(o, (ast.Eq, ast.NotEq, ast.In, ast.NotIn)) for o in node.ops):
                for side in [node.left] + list(node.comparators):
                    cands += [c for c in ast.walk(side) if isinstance(c, ast.Constant)]
            elif isinstance(node, ast.ClassDef):
                for st in node.body:
                    if isinstance(st, (ast.Assign, ast.AnnAssign)) and isinstance(getattr(st, "value", None), ast.Constant):
                        cands.append(st.value)
            for c in cands:
                if isinstance(c.value, str) and re.fullmatch(r"[A-Za-z_][A-Za-z0-9_]{0,15}", c.value) and not (c.value.startswith("__") and c.value.endswith("__")):
                    n = c.value + "x"
                    if n not in out:
                        out.append(n)
    ctx.src._verif_harvest = out[:12]
    return ctx.src._verif_harvest


def aux_state(h, res):
    """The tree keeps auxiliary mutable state next to the role fields: pre-states are then reached through the public API only
    (no opaque segments), and the verdict of the inductive engines is a bounded one."""
    if getattr(h, "aux", None):
        res.bounded_only = True
        res.note(f"auxiliary state {h.aux}: pre-states are built through the public API (concrete, no opaque segments); level for this run: bounded")


# ------------------------------------------------------------------------------- size thresholds named by the tree itself
SIZE_CAP = 520       # sizes explored by the 'deep' scale shape (cost linear in the size; 501 = half of CPython's default recursion limit + 1)
HUB_CAP = 130        # ... by the shapes whose cost grows faster


def _fold(node):
    """value of a constant numeric expression (literals combined by + - * // % ** << >> and unary minus), else None"""
    import ast
    if isinstance(node, ast.Constant) and isinstance(node.value, (int, float)) and not isinstance(node.value, bool):
        return node.value
    if isinstance(node, ast.Call) and not node.args and not node.keywords and (getattr(node.func, "attr", None) == "getrecursionlimit" or getattr(node.func, "id", None) == "getrecursionlimit"):
        return 1000       # CPython's default recursion limit
    if isinstance(node, ast.UnaryOp) and isinstance(node.op, (ast.USub, ast.UAdd)):
        v = _fold(node.operand)
        return None if v is None else (-v if isinstance(node.op, ast.USub) else v)
    if isinstance(node, ast.BinOp):
        a, b = _fold(node.left), _fold(node.right)
        if a is None or b is None:
            return None
        try:
            if isinstance(node.op, ast.Add):
                return a + b
            if isinstance(node.op, ast.Sub):
                return a - b
            if isinstance(node.op, ast.Mult):
                return a * b
            if isinstance(node.op, ast.FloorDiv):
                return a // b
            if isinstance(node.op, ast.Div):
                return a / b
            if isinstance(node.op, ast.Mod):
                return a % b
            if isinstance(node.op, ast.Pow) and abs(b) <= 16 and abs(a) <= 64:
                return a ** b
            if isinstance(node.op, ast.LShift) and isinstance(a, int) and isinstance(b, int) and 0 <= b <= 16:
                return a << b
            if isinstance(node.op, ast.RShift) and isinstance(a, int) and isinstance(b, int) and 0 <= b <= 64:
                return a >> b
        except (ZeroDivisionError, OverflowError, TypeError, ValueError):
            return None
    return None


_SIZE_CALLS = {"lru_cache", "range", "islice", "deque", "setrecursionlimit", "min", "max", "divmod", "batched", "nlargest", "nsmallest", "accumulate", "repeat", "combinations", "permutations"}


def harvested_sizes(src, exclude=("edgegraph/version.py",)):
    """Numbers >= 3 that the tree itself uses where a *size* can be meant: operands of comparisons, slice bounds, arguments of range / islice / deque(maxlen=) / min / max ..., right operands of % and //, module- and class-level
    numeric constants, numeric defaults of parameters of private functions.  A tree that switches algorithm, cuts off, chunks or
    indexes once a collection passes some size names that size in its own source (possibly as a folded constant expression);
    graphs whose collections sit just below, at and just above it are the input class that reaches the switch.  -> (sorted sizes
    within SIZE_CAP, sizes beyond the cap)"""
    import ast
    cached = getattr(src, "_verif_sizes", None)
    if cached is not None:
        return cached
    found = {}

    def take(node, rel, why):
        v = _fold(node)
        if v is None:
            return
        if isinstance(v, float):
            if v != v or v in (float("inf"), float("-inf")):
                return
            v = int(v)
        v = abs(v)
        if v >= 3:
            found.setdefault(v, f"{rel}:{getattr(node, 'lineno', '?')} ({why})")

    for rel in src.relpaths():
        if rel in exclude:
            continue
        try:
            tree = src.tree(rel)
        except (SourceError, OSError):
            continue
        for node in ast.walk(tree):
            if isinstance(node, ast.Compare):
                for side in [node.left] + list(node.comparators):
                    take(side, rel, "comparison")
            elif isinstance(node, ast.Slice):
                for b in (node.lower, node.upper, node.step):
                    if b is not None:
                        take(b, rel, "slice")
            elif isinstance(node, ast.Call):
                fname = node.func.attr if isinstance(node.func, ast.Attribute) else getattr(node.func, "id", None)
                if fname in _SIZE_CALLS:
                    for a in list(node.args) + [k.value for k in node.keywords]:
                        take(a, rel, f"{fname}()")
                else:
                    for k in node.keywords:
                        if k.arg and any(t in k.arg.lower() for t in ("max", "min", "limit", "size", "depth", "len", "count", "chunk", "thresh", "cap")):
                            take(k.value, rel, f"{k.arg}=")
            elif isinstance(node, ast.BinOp) and isinstance(node.op, (ast.Mod, ast.FloorDiv)) and _fold(node) is None:
                take(node.right, rel, "% or //")
            elif isinstance(node, (ast.Module, ast.ClassDef)):
                for st in node.body:
                    if isinstance(st, (ast.Assign, ast.AnnAssign)) and getattr(st, "value", None) is not None:
                        vals = st.value.elts if isinstance(st.value, (ast.Tuple, ast.List)) else [st.value]
                        for v in vals:
                            take(v, rel, "module/class-level constant")
            elif isinstance(node, (ast.FunctionDef, ast.AsyncFunctionDef, ast.Lambda)):
                for dec in getattr(node, "decorator_list", []):
                    # a bare @lru_cache / @lru_cache() holds 128 entries: a size the tree names by not naming one
                    target = dec.func if isinstance(dec, ast.Call) and not dec.args and not any(k.arg == "maxsize" for k in dec.keywords) else dec
                    dn = target.attr if isinstance(target, ast.Attribute) else getattr(target, "id", None)
                    if dn == "lru_cache" and not (isinstance(dec, ast.Call) and (dec.args or any(k.arg == "maxsize" for k in dec.keywords))):
                        take(ast.Constant(value=128), rel, "default maxsize of functools.lru_cache")
                private = isinstance(node, ast.Lambda) or node.name.startswith("_")
                if private:
                    for d in list(node.args.defaults) + [d for d in node.args.kw_defaults if d is not None]:
                        take(d, rel, "default of a private function's parameter")
    small = sorted(v for v in found if v <= SIZE_CAP)
    big = sorted(v for v in found if v > SIZE_CAP)
    src._verif_sizes = (small, big, found)
    return src._verif_sizes


def scale_sizes(ctx, res=None, default=(9,), thorough_default=(9, 33)):
    """the collection sizes the scale families are built at: for every harvested size c the sizes c and c + 1 (thorough: also c - 1
    and 2c + 1), plus default sizes beyond everything the small scopes reach"""
    small, big, found = harvested_sizes(ctx.src)
    out = set(thorough_default if ctx.thorough else default)
    for c in small:
        out.update((c, c + 1))
        if ctx.thorough:
            out.update((c - 1, min(2 * c + 1, SIZE_CAP + 1)))
    out = sorted(n for n in out if n >= 4)
    if res is not None:
        res.extra["scale"] = {"harvested_sizes": {str(c): found[c] for c in small}, "beyond_cap_not_explored": {str(c): found[c] for c in big}, "sizes_explored": out}
        if big:
            res.note(f"size constants beyond the cap of {SIZE_CAP} are named by the tree but not explored: " + ", ".join(f"{c} at {found[c]}" for c in big))
    return out


def warned(out):
    """did the call end by raising a Warning category (possible only in the warnings-as-errors pass)?"""
    exc = getattr(out, "exc", None)
    return out.kind == "raise" and exc is not None and any(c.name == "Warning" for c in exc.cls.mro)
