"""Helpers shared by the per-property rules."""
from __future__ import annotations
import hashlib

from sa.pm import Program, identity_model_violations
from sa.src import SourceError

TRUSTED_AE = [
    "AE's model of the Python subset (attribute lookup incl. properties/descriptors, MRO, super, name mangling, exceptions of list/tuple/dict operations, generators collapsed to their yielded trace)",
    "identity model: no edgegraph.structure class defines __eq__/__hash__/__contains__/__getattr__/__setattr__ (checked on every run)",
    "models of built-ins and external modules in sa/aeb.py, sa/aeb2.py (uuid4 values pairwise distinct and non-zero)",
    "oracle tables transcribed from properties.jsonl (DESIGN.md Appendix A)",
]

_PROG = {}


def program(ctx) -> Program:
    if getattr(ctx.src, "_verif_prog", None) is None:
        ctx.src._verif_prog = Program(ctx.src)
    return ctx.src._verif_prog


def identity_model(ctx):
    bad = identity_model_violations(program(ctx))
    for b in bad:
        ctx.res.undecide(f"identity model precondition lost: {b}")
    return not bad


def analysed(ctx, dotted_funcs, files=None):
    prog = program(ctx)
    out = {"functions": {}, "files": {}}
    rels = set(files or [])
    for d in dotted_funcs:
        f = prog.func(d)
        out["functions"][d] = {"at": f.loc(), "digest": f.digest()}
        rels.add(f.rel)
    for r in sorted(rels):
        out["files"][r] = hashlib.sha256(ctx.src.text(r).encode()).hexdigest()[:12]
    return out


def vacuity(res, rule, minimum):
    n = res.rules.get(rule, {}).get("instances", 0)
    if n < minimum:
        res.undecide(f"vacuity guard: rule {rule} matched {n} instance(s), expected at least {minimum}")


def own_rule(ctx, fields):
    """OWN premise (filled in by sa.eff once available)."""
    from sa import eff
    from sa.harness import H
    if getattr(ctx, "_actual_fields", None) is None:
        ctx._actual_fields = H(ctx.src).actual      # state fields located by role (a tree may have renamed them)
    role = {"Vertex._links": "links", "Link._vertices": "ends", "Universe._vertices": "members", "BaseObject._universes": "universes", "Universe._laws": "laws",
            "UniverseLaws._applies_to": "applies_to"}
    actual = {}
    for spec in fields:
        if spec in role:
            name = ctx._actual_fields[role[spec]]
            cname = spec.split(".", 1)[0]
            actual[spec] = name
            if name != spec.split(".", 1)[1]:
                ctx.res.note(f"state field {spec} is called `{name}` in this tree (located by role)")
    eff.check_own(ctx, fields, actual)


def harvested_names(ctx, packages=("edgegraph/structure", "edgegraph/output/nrpickler.py")):
    """Attribute names built from the string constants the tree itself tests names against (arguments of startswith / endswith,
    operands of == / in, class-level string constants): `<constant>x`.  A tree that treats some family of attribute names specially
    names that family in its own source; objects carrying such an attribute are the input class that reaches the special case."""
    import ast
    import re
    cached = getattr(ctx.src, "_verif_harvest", None)
    if cached is not None:
        return cached
    out = []
    files = []
    for pkg in packages:
        if pkg.endswith(".py"):
            files.append(pkg)
        else:
            files += [r for r in ctx.src.relpaths() if r.startswith(pkg + "/")]
    for rel in files:
        try:
            tree = ctx.src.tree(rel)
        except (SourceError, OSError):
            continue
        for node in ast.walk(tree):
            cands = []
            if isinstance(node, ast.Call) and isinstance(node.func, ast.Attribute) and node.func.attr in ("startswith", "endswith", "removeprefix", "removesuffix"):
                for a in node.args:
                    cands += [c for c in ast.walk(a) if isinstance(c, ast.Constant)]
            elif isinstance(node, ast.Compare) and any(isinstance(o, (ast.Eq, ast.NotEq, ast.In, ast.NotIn)) for o in node.ops):
                for side in [node.left] + list(node.comparators):
                    cands += [c for c in ast.walk(side) if isinstance(c, ast.Constant)]
            elif isinstance(node, ast.ClassDef):
                for st in node.body:
                    if isinstance(st, (ast.Assign, ast.AnnAssign)) and isinstance(getattr(st, "value", None), ast.Constant):
                        cands.append(st.value)
            for c in cands:
                if isinstance(c.value, str) and re.fullmatch(r"[A-Za-z_][A-Za-z0-9_]{0,15}", c.value) and not (c.value.startswith("__") and c.value.endswith("__")):
                    n = c.value + "x"
                    if n not in out:
                        out.append(n)
    ctx.src._verif_harvest = out[:12]
    return ctx.src._verif_harvest


def aux_state(h, res):
    """The tree keeps auxiliary mutable state next to the role fields: pre-states are then reached through the public API only
    (no opaque segments), and the verdict of the inductive engines is a bounded one."""
    if getattr(h, "aux", None):
        res.bounded_only = True
        res.note(f"auxiliary state {h.aux}: pre-states are built through the public API (concrete, no opaque segments); level for this run: bounded")
