"""Helpers shared by the per-property rules."""
from __future__ import annotations
import hashlib

from sa.pm import Program, identity_model_violations
from sa.src import SourceError

TRUSTED_AE = [
    "AE's model of the Python subset (attribute lookup incl. properties/descriptors, MRO, super, name mangling, exceptions of list/tuple/dict operations, generators collapsed to their yielded trace)",
    "identity model: no edgegraph.structure class defines __eq__/__hash__/__contains__/__getattr__/__setattr__ (checked on every run)",
    "models of built-ins and external modules in sa/aeb.py, sa/aeb2.py (uuid4 values pairwise distinct and non-zero)",
    "oracle tables transcribed from properties.jsonl (DESIGN.md Appendix A)",
]

_PROG = {}


def program(ctx) -> Program:
    if getattr(ctx.src, "_verif_prog", None) is None:
        ctx.src._verif_prog = Program(ctx.src)
    return ctx.src._verif_prog


def identity_model(ctx):
    bad = identity_model_violations(program(ctx))
    for b in bad:
        ctx.res.undecide(f"identity model precondition lost: {b}")
    return not bad


def analysed(ctx, dotted_funcs, files=None):
    prog = program(ctx)
    out = {"functions": {}, "files": {}}
    rels = set(files or [])
    for d in dotted_funcs:
        f = prog.func(d)
        out["functions"][d] = {"at": f.loc(), "digest": f.digest()}
        rels.add(f.rel)
    for r in sorted(rels):
        out["files"][r] = hashlib.sha256(ctx.src.text(r).encode()).hexdigest()[:12]
    return out


def vacuity(res, rule, minimum):
    n = res.rules.get(rule, {}).get("instances", 0)
    if n < minimum:
        res.undecide(f"vacuity guard: rule {rule} matched {n} instance(s), expected at least {minimum}")


def own_rule(ctx, fields):
    """OWN premise (filled in by sa.eff once available)."""
    from sa import eff
    from sa.harness import H
    if getattr(ctx, "_actual_fields", None) is None:
        ctx._actual_fields = H(ctx.src).actual      # state fields located by role (a tree may have renamed them)
    role = {"Vertex._links": "links", "Link._vertices": "ends", "Universe._vertices": "members", "BaseObject._universes": "universes", "Universe._laws": "laws",
            "UniverseLaws._applies_to": "applies_to"}
    actual = {}
    for spec in fields:
        if spec in role:
            name = ctx._actual_fields[role[spec]]
            cname = spec.split(".", 1)[0]
            actual[spec] = name
            if name != spec.split(".", 1)[1]:
                ctx.res.note(f"state field {spec} is called `{name}` in this tree (located by role)")
    eff.check_own(ctx, fields, actual)
